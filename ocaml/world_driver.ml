(* handlers for the tree / history model: keeps the current tree, applies steps, prints observations as JSON
   in which every string is a text token (hex code points joined by '.', '-' when empty). *)
open Model

let rec pos_of_int i = if i = 1 then XH else if i land 1 = 0 then XO (pos_of_int (i lsr 1)) else XI (pos_of_int (i lsr 1))
let n_of_int i = if i = 0 then N0 else Npos (pos_of_int i)
let rec int_of_pos = function XH -> 1 | XO p -> 2 * int_of_pos p | XI p -> 2 * int_of_pos p + 1
let int_of_n = function N0 -> 0 | Npos p -> int_of_pos p
let int_of_z = function Z0 -> 0 | Zpos p -> int_of_pos p | Zneg p -> - (int_of_pos p)
let hexval c = match c with
  | '0'..'9' -> Char.code c - 48 | 'a'..'f' -> Char.code c - 87 | 'A'..'F' -> Char.code c - 55 | _ -> failwith "bad hex"
let bytes_of_hex s =
  if s = "-" then [] else
  let n = String.length s / 2 in
  let rec go i acc = if i < 0 then acc else go (i - 1) (n_of_int (hexval s.[2*i] * 16 + hexval s.[2*i+1]) :: acc) in
  go (n - 1) []
let hex_of_bytes l =
  if l = [] then "-" else begin
    let b = Buffer.create 64 in
    List.iter (fun x -> Buffer.add_string b (Printf.sprintf "%02x" (int_of_n x))) l; Buffer.contents b end
let text_of_tok s = if s = "-" then [] else List.map (fun h -> n_of_int (int_of_string ("0x" ^ h))) (String.split_on_char '.' s)
let tok_of_text l = if l = [] then "-" else String.concat "." (List.map (fun x -> Printf.sprintf "%x" (int_of_n x)) l)
(* a path token: components joined by '/', "." for the empty path *)
let path_of_tok s = if s = "." then [] else List.map text_of_tok (String.split_on_char '/' s)
let tok_of_path p = if p = [] then "." else String.concat "/" (List.map tok_of_text p)
let ascii s = List.map (fun c -> n_of_int (Char.code c)) (List.init (String.length s) (String.get s))
let fmt_of_tok s = match fmt_of_name (ascii s) with Some f -> f | None -> failwith ("unknown format " ^ s)
let tok_of_fmt f = String.concat "" (List.map (fun x -> String.make 1 (Char.chr (int_of_n x))) (fmt_name f))

(* ---- token stream ---- *)
let toks = ref ([] : Stdlib.String.t list)
let next () = match !toks with [] -> failwith "unexpected end of request" | x :: r -> toks := r; x
let next_int () = int_of_string (next ())
let next_list f = let n = next_int () in List.init n (fun _ -> f ())
let next_text () = text_of_tok (next ())
let next_path () = path_of_tok (next ())
let next_bool () = next () = "1"

let rec next_node () : n node =
  match next () with
  | "F" -> File (bytes_of_hex (next ()))
  | "D" -> let n = next_int () in
    let kids = List.init n (fun _ -> let name = next_text () in let k = next_node () in (name, k)) in
    Dir (None, kids)
  | t -> failwith ("bad node tag " ^ t)

(* ---- JSON printing ---- *)
let jstr s = "\"" ^ s ^ "\""
let jlist f l = "[" ^ String.concat "," (List.map f l) ^ "]"
let jopt f = function None -> "null" | Some x -> f x
let jtext t = jstr (tok_of_text t)
let jpath p = jstr (tok_of_path p)
let jaction = function Original -> jstr "original" | Verified -> jstr "verified" | Failed -> jstr "failed" | New -> jstr "new"
let jentry e = "[" ^ String.concat "," [jstr (tok_of_fmt e.e_fmt); jtext e.e_digest; jopt jaction e.e_action; jopt jtext e.e_struct] ^ "]"
let jrecord r =
  Printf.sprintf "{\"path\":%s,\"dir\":%s,\"size\":%s,\"entries\":%s,\"prev\":%s}"
    (jpath r.r_path) (if r.r_dir then "true" else "false") (jopt (fun n -> string_of_int (int_of_n n)) r.r_size)
    (jlist jentry r.r_entries) (jopt jpath r.r_prev)
let jgen (h, g) =
  Printf.sprintf "{\"hist\":%s,\"no\":%d,\"records\":%s,\"root\":%s,\"patterns\":%s,\"refs\":%s,\"process\":%s}"
    (jpath h) (int_of_n g.g_no) (jlist jrecord g.g_records)
    (jopt (jlist (fun e -> "[" ^ String.concat "," [jstr (tok_of_fmt e.e_fmt); jtext e.e_digest; jopt jtext e.e_struct] ^ "]")) g.g_root)
    (jlist jtext g.g_patterns) (jlist (fun (p, n) -> "[" ^ jpath p ^ "," ^ string_of_int (int_of_n n) ^ "]") g.g_refs)
    (match g.g_process with InPlace -> jstr "in-place" | Flatten -> jstr "flatten")
let jinfo = function
  | IHist p -> "[\"H\"," ^ jpath p ^ "]"
  | IGen n -> "[\"G\"," ^ string_of_int (int_of_n n) ^ "]"
  | IFile p -> "[\"F\"," ^ jpath p ^ "]"
  | IEntry (n, f, d, a) -> "[\"E\"," ^ string_of_int (int_of_n n) ^ "," ^ jstr (tok_of_fmt f) ^ "," ^ jtext d ^ "," ^ jopt jaction a ^ "]"
let jobs o =
  Printf.sprintf "{\"outcome\":%s,\"written\":%s,\"missing\":%s,\"mismatch\":%s,\"new\":%s,\"ops\":%s,\"info\":%s,\"dh\":%s}"
    (match o.o_outcome with Exit c -> "[\"exit\"," ^ string_of_int (int_of_z c) ^ "]" | Abort -> "[\"abort\",\"\"]")
    (jlist jgen o.o_written) (jlist jpath o.o_missing) (jlist jpath o.o_mismatch) (jlist jpath o.o_new)
    (jlist (fun (k, p) -> "[" ^ string_of_int (int_of_n k) ^ "," ^ jpath p ^ "]") o.o_ops) (jlist jinfo o.o_info)
    (jlist (fun (((p, f), c), st) -> "[" ^ String.concat "," [jpath p; jstr (tok_of_fmt f); jtext c; jtext st] ^ "]") o.o_dh)

(* ---- state ---- *)
let tree : n node ref = ref (Dir (None, []))
(* the manifest content type is instantiated with N: 0 = as written, anything else = tampered; its digest text
   is the one-element text [c], so distinct contents have distinct digests in the run *)
let cdig (c : n) : text = [c]
let ser (_ : gen) : n = N0

let handle (ask : Stdlib.String.t -> Stdlib.String.t) (words : Stdlib.String.t list) : Stdlib.String.t option =
  let hb f b = bytes_of_hex (ask ("H " ^ tok_of_fmt f ^ " " ^ hex_of_bytes b)) in
  let matches pats s = ask ("M " ^ string_of_int (List.length pats) ^ " " ^ String.concat " " (List.map tok_of_text pats @ [tok_of_text s])) = "1" in
  let step s = let (t', o) = do_step hb matches cdig ser !tree s in tree := t'; Some (jobs o) in
  match words with
  | "init" :: rest -> toks := rest; tree := next_node (); Some "ok"
  | "create" :: rest ->
    toks := rest;
    let root = next_path () in
    let req = next_list (fun () -> fmt_of_tok (next ())) in
    let no_dh = next_bool () in let dr = next_bool () in
    let sf = next_list next_path in
    let ipats = next_list next_text in
    let ifile = if next_bool () then Some (next_list next_text) else None in
    step (SCreate (root, req, no_dh, dr, sf, ipats, ifile))
  | "verify" :: rest ->
    toks := rest;
    let root = next_path () in
    let sf = if next_bool () then Some (next_path ()) else None in
    let ipats = next_list next_text in
    step (SVerify (root, sf, ipats))
  | "diff" :: rest -> toks := rest; let root = next_path () in let ipats = next_list next_text in step (SDiff (root, ipats))
  | "verifydh" :: rest ->
    toks := rest;
    let root = next_path () in
    let f = if next_bool () then Some (fmt_of_tok (next ())) else None in
    let co = next_bool () in let ro = next_bool () in
    let ipats = next_list next_text in
    step (SVerifyDH (root, f, co, ro, ipats))
  | ["info"; root] -> step (SInfo (path_of_tok root))
  | ["infosf"; file; "0"] -> step (SInfoSF (path_of_tok file, None))
  | ["infosf"; file; "1"; root] -> step (SInfoSF (path_of_tok file, Some (path_of_tok root)))
  | ["flatten"; root] -> step (SFlatten (path_of_tok root))
  | "verifypl" :: rest -> toks := rest; let root = next_path () in let src = next_path () in let ipats = next_list next_text in step (SVerifyPL (root, src, ipats))
  | ["set"; p; data] -> step (SSet (path_of_tok p, bytes_of_hex data))
  | ["mkdir"; p] -> step (SMkdir (path_of_tok p))
  | ["delete"; p] -> step (SDelete (path_of_tok p))
  | ["rename"; p; q] -> step (SRename (path_of_tok p, path_of_tok q))
  | ["touch"; p] -> step (STouch (path_of_tok p))
  | ["tamper"; h; g] -> step (STamper (path_of_tok h, n_of_int (int_of_string g), n_of_int 1))
  | ["rmmanifest"; h; g] -> step (SRmManifest (path_of_tok h, n_of_int (int_of_string g)))
  | ["rmchain"; h] -> step (SRmChain (path_of_tok h))
  | _ -> None
