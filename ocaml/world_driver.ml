(* handlers for the tree / history model (filled in as the model grows) *)
let handle (_ask : string -> string) (_words : string list) : string option = None
