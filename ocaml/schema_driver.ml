(* Driver for the extracted schema validator (schema_model.ml).  One request per line, one reply line "R 1" / "R 0":
     V m|d <tree>        validate the tree against schema_manifest / schema_directory
     S dt|int|email <text>   the simple-type predicates on their own
     D y mo d h mi s us neg oh om   -> "R <text>"  render_datetime (decimal arguments, neg = 0/1)
   <tree> ::= E <tag> <n> (<name> <value>){n} (T <text> | N) <k> <tree>{k}
   text tokens: code points in hex joined by ".", "-" when empty.  The driver computes nothing itself. *)
open Schema_model

let rec pos_of_int i = if i = 1 then XH else if i land 1 = 0 then XO (pos_of_int (i lsr 1)) else XI (pos_of_int (i lsr 1))
let n_of_int i = if i = 0 then N0 else Npos (pos_of_int i)
let rec int_of_pos = function XH -> 1 | XO p -> 2 * int_of_pos p | XI p -> 2 * int_of_pos p + 1
let int_of_n = function N0 -> 0 | Npos p -> int_of_pos p
let text_of_tok s =
  if s = "-" then [] else List.map (fun h -> n_of_int (int_of_string ("0x" ^ h))) (String.split_on_char '.' s)
let tok_of_text l =
  if l = [] then "-" else String.concat "." (List.map (fun x -> Printf.sprintf "%x" (int_of_n x)) l)

let parse_tree (a : string array) (i : int ref) =
  let next () = let s = a.(!i) in incr i; s in
  let rec tree () =
    if next () <> "E" then failwith "E expected";
    let tag = text_of_tok (next ()) in
    let n = int_of_string (next ()) in
    let attrs = List.init n (fun _ -> let k = text_of_tok (next ()) in let v = text_of_tok (next ()) in (k, v)) in
    let content = match next () with "T" -> Some (text_of_tok (next ())) | "N" -> None | _ -> failwith "T/N expected" in
    let k = int_of_string (next ()) in
    let kids = List.init k (fun _ -> tree ()) in
    Elem (tag, attrs, content, kids) in
  tree ()

let () =
  try
    while true do
      let line = input_line stdin in
      let a = Array.of_list (List.filter (fun s -> s <> "") (String.split_on_char ' ' line)) in
      let reply =
        try
          match a.(0) with
          | "V" ->
            let sch = (match a.(1) with "m" -> schema_manifest | "d" -> schema_directory | _ -> failwith "schema") in
            let i = ref 2 in
            let x = parse_tree a i in
            if !i <> Array.length a then failwith "trailing tokens";
            if validate sch x then "R 1" else "R 0"
          | "S" ->
            let v = text_of_tok a.(2) in
            let r = (match a.(1) with "dt" -> datetime_ok v | "int" -> integer_ok v | "email" -> email_ok v | _ -> failwith "stype") in
            if r then "R 1" else "R 0"
          | "D" ->
            let n k = n_of_int (int_of_string a.(k)) in
            "R " ^ tok_of_text (render_datetime (n 1) (n 2) (n 3) (n 4) (n 5) (n 6) (n 7) (a.(8) = "1") (n 9) (n 10))
          | _ -> "R ?"
        with e -> "R !" ^ Printexc.to_string e in
      print_string reply; print_newline ()
    done
  with End_of_file -> ()
