(* Driver for the extracted schema validator (schema_model.ml).  One request per line, one reply line "R 1" / "R 0":
     V m|d <tree>        validate the tree against schema_manifest / schema_directory
     S dt|int|email <text>   the simple-type predicates on their own
     D y mo d h mi s us neg oh om   -> "R <text>"  render_datetime (decimal arguments, neg = 0/1)
     RH <hashlist object>  -> "R <reach> <validate schema_manifest (emit_hashlist o)> <creator_reach|-> <procinfo_reach>
                                 <record_reach of every record, as a 0/1 string or -> | <infoset (emit_hashlist o)>"
     RC <chain object>     -> "R <reach_chain> <validate schema_directory (emit_chain c)> <chainent_reach bits> | <tree>"
   object grammar: the one of harness/vh/props/c10.py / ocaml/xml_driver.ml (enc_hashlist, enc_chain)
   <tree> ::= E <tag> <n> (<name> <value>){n} (T <text> | N) <k> <tree>{k}
   text tokens: code points in hex joined by ".", "-" when empty.  The driver computes nothing itself. *)
open Schema_model

let rec pos_of_int i = if i = 1 then XH else if i land 1 = 0 then XO (pos_of_int (i lsr 1)) else XI (pos_of_int (i lsr 1))
let n_of_int i = if i = 0 then N0 else Npos (pos_of_int i)
let rec int_of_pos = function XH -> 1 | XO p -> 2 * int_of_pos p | XI p -> 2 * int_of_pos p + 1
let int_of_n = function N0 -> 0 | Npos p -> int_of_pos p
let text_of_tok s =
  if s = "-" then [] else List.map (fun h -> n_of_int (int_of_string ("0x" ^ h))) (String.split_on_char '.' s)
let tok_of_text l =
  if l = [] then "-" else String.concat "." (List.map (fun x -> Printf.sprintf "%x" (int_of_n x)) l)

let z_of_int i = if i = 0 then Z0 else if i > 0 then Zpos (pos_of_int i) else Zneg (pos_of_int (- i))
let hexval c = match c with
  | '0'..'9' -> Char.code c - 48 | 'a'..'f' -> Char.code c - 87 | 'A'..'F' -> Char.code c - 55
  | _ -> failwith "bad hex"
let n_of_hex s =
  let bits = ref [] in
  String.iter (fun c -> let v = hexval c in bits := (v land 1 <> 0) :: (v land 2 <> 0) :: (v land 4 <> 0) :: (v land 8 <> 0) :: !bits) s;
  let rec strip = function false :: r -> strip r | l -> l in
  match strip (List.rev !bits) with
  | [] -> N0
  | _ :: rest -> Npos (List.fold_left (fun p b -> if b then XI p else XO p) XH rest)

(* ---- object token stream (same grammar as ocaml/xml_driver.ml) ---- *)
let toks : Stdlib.String.t list ref = ref []
let next () = match !toks with x :: r -> toks := r; x | [] -> failwith "unexpected end of request"
let p_text () = text_of_tok (next ())
let p_opt f = match next () with "N" -> None | "S" -> Some (f ()) | x -> failwith ("bad option tag " ^ x)
let p_otext () = p_opt p_text
let p_int () = int_of_string (next ())
let p_list f = let n = p_int () in let rec go i acc = if i = 0 then List.rev acc else go (i - 1) (f () :: acc) in go n []
let p_bool () = next () = "1"
let p_n () = n_of_hex (next ())
let p_date () =
  let y = n_of_int (p_int ()) in let mo = n_of_int (p_int ()) in let d = n_of_int (p_int ()) in
  let h = n_of_int (p_int ()) in let mi = n_of_int (p_int ()) in let s = n_of_int (p_int ()) in
  let us = n_of_int (p_int ()) in let off = z_of_int (p_int ()) in
  { dt_y = y; dt_mo = mo; dt_d = d; dt_h = h; dt_mi = mi; dt_s = s; dt_us = us; dt_off = off }
let p_entry () =
  let f = p_text () in let dg = p_otext () in let a = p_otext () in let d = p_opt p_date in let s = p_otext () in
  { xe_fmt = f; xe_digest = dg; xe_action = a; xe_date = d; xe_struct = s }
let p_record () =
  let p = p_otext () in let dir = p_bool () in let sz = p_opt p_n in let lm = p_opt p_date in
  let es = p_list p_entry in let pv = p_otext () in
  { xr_path = p; xr_dir = dir; xr_size = sz; xr_lastmod = lm; xr_entries = es; xr_prev = pv }
let p_author () =
  let n = p_otext () in let e = p_otext () in let ph = p_otext () in let r = p_otext () in
  { xa_name = n; xa_email = e; xa_phone = ph; xa_role = r }
let p_tool () = let n = p_otext () in let v = p_otext () in { xt_name = n; xt_version = v }
let p_creator () =
  let d = p_otext () in let h = p_otext () in let tl = p_opt p_tool in let au = p_list p_author in
  let l = p_otext () in let c = p_otext () in
  { xc_date = d; xc_host = h; xc_tool = tl; xc_authors = au; xc_location = l; xc_comment = c }
let p_process () = let ty = p_otext () in let nm = p_otext () in { xp_type = ty; xp_name = nm }
let p_procinfo () =
  let pr = p_opt p_process in let rt = p_opt p_record in let ig = p_opt (fun () -> p_list p_otext) in
  { xpi_process = pr; xpi_root = rt; xpi_ignore = ig }
let p_ref () = let p = p_otext () in let c = p_otext () in { xf_path = p; xf_c4 = c }
let p_hashlist () =
  let c = p_opt p_creator in let pi = p_procinfo () in let rs = p_list p_record in let rf = p_list p_ref in
  { xh_creator = c; xh_process = pi; xh_records = rs; xh_refs = rf }
let p_seq () = match next () with
  | "I" -> SeqInt (z_of_int (p_int ())) | "T" -> SeqStr (p_text ()) | "N" -> SeqNone | x -> failwith ("bad seq " ^ x)
let p_chainent () =
  let no = p_seq () in let f = p_otext () in let fm = p_otext () in let h = p_otext () in
  { ce_no = no; ce_file = f; ce_fmt = fm; ce_hash = h }
let rec tree_toks (Elem (tg, attrs, c, kids)) =
  ["E"; tok_of_text tg; string_of_int (List.length attrs)]
  @ List.concat_map (fun (k, v) -> [tok_of_text k; tok_of_text v]) attrs
  @ (match c with None -> ["N"] | Some x -> ["T"; tok_of_text x])
  @ [string_of_int (List.length kids)] @ List.concat_map tree_toks kids
let bit b = if b then "1" else "0"
let bits l = if l = [] then "-" else String.concat "" (List.map bit l)

let parse_tree (a : Stdlib.String.t array) (i : int ref) =
  let next () = let s = a.(!i) in incr i; s in
  let rec tree () =
    if next () <> "E" then failwith "E expected";
    let tag = text_of_tok (next ()) in
    let n = int_of_string (next ()) in
    let attrs = List.init n (fun _ -> let k = text_of_tok (next ()) in let v = text_of_tok (next ()) in (k, v)) in
    let content = match next () with "T" -> Some (text_of_tok (next ())) | "N" -> None | _ -> failwith "T/N expected" in
    let k = int_of_string (next ()) in
    let kids = List.init k (fun _ -> tree ()) in
    Elem (tag, attrs, content, kids) in
  tree ()

let () =
  try
    while true do
      let line = input_line stdin in
      let a = Array.of_list (List.filter (fun s -> s <> "") (String.split_on_char ' ' line)) in
      let reply =
        try
          match a.(0) with
          | "V" ->
            let sch = (match a.(1) with "m" -> schema_manifest | "d" -> schema_directory | _ -> failwith "schema") in
            let i = ref 2 in
            let x = parse_tree a i in
            if !i <> Array.length a then failwith "trailing tokens";
            if validate sch x then "R 1" else "R 0"
          | "S" ->
            let v = text_of_tok a.(2) in
            let r = (match a.(1) with "dt" -> datetime_ok v | "int" -> integer_ok v | "email" -> email_ok v | _ -> failwith "stype") in
            if r then "R 1" else "R 0"
          | "RH" ->
            toks := List.tl (Array.to_list a);
            let o = p_hashlist () in
            if !toks <> [] then failwith "trailing tokens";
            let x = emit_hashlist o in
            String.concat " " (["R"; bit (reach o); bit (validate schema_manifest x);
                                (match o.xh_creator with Some c -> bit (creator_reach c) | None -> "-");
                                bit (procinfo_reach o.xh_process); bits (List.map record_reach o.xh_records); "|"] @ tree_toks (infoset x))
          | "RC" ->
            toks := List.tl (Array.to_list a);
            let c = p_list p_chainent in
            if !toks <> [] then failwith "trailing tokens";
            let x = emit_chain c in
            String.concat " " (["R"; bit (reach_chain c); bit (validate schema_directory x); bits (List.map chainent_reach c); "|"] @ tree_toks (infoset x))
          | "D" ->
            let n k = n_of_int (int_of_string a.(k)) in
            "R " ^ tok_of_text (render_datetime (n 1) (n 2) (n 3) (n 4) (n 5) (n 6) (n 7) (a.(8) = "1") (n 9) (n 10))
          | _ -> "R ?"
        with e -> "R !" ^ (match e with Failure m -> m | _ -> Printexc.to_string e) in
      print_string reply; print_newline ()
    done
  with End_of_file -> ()
