(* Driver for the extracted model (model.ml).  Line protocol on stdin/stdout:
     request : one line, a command word and space-separated arguments
     reply   : zero or more oracle queries "Q ..." (each answered by the harness with one line "A ..."),
               then exactly one line "R ...".
   The driver computes nothing itself: it parses arguments into the extracted datatypes, calls the extracted
   functions, prints their results, and forwards oracle calls (hash primitive, matcher) to the harness.
   bytes: lower-case hex, "-" when empty.  text: code points in hex joined by ".", "-" when empty. *)
open Model

(* ---- conversions between OCaml ints / strings and the extracted datatypes ---- *)
let rec pos_of_int i = if i = 1 then XH else if i land 1 = 0 then XO (pos_of_int (i lsr 1)) else XI (pos_of_int (i lsr 1))
let n_of_int i = if i = 0 then N0 else Npos (pos_of_int i)
let rec int_of_pos = function XH -> 1 | XO p -> 2 * int_of_pos p | XI p -> 2 * int_of_pos p + 1
let int_of_n = function N0 -> 0 | Npos p -> int_of_pos p
let nat_of_int i = let rec go acc i = if i = 0 then acc else go (S acc) (i - 1) in go O i
let int_of_nat n = let rec go acc = function O -> acc | S k -> go (acc + 1) k in go 0 n

let hexval c = match c with
  | '0'..'9' -> Char.code c - 48 | 'a'..'f' -> Char.code c - 87 | 'A'..'F' -> Char.code c - 55
  | _ -> failwith "bad hex"
let bytes_of_hex s =
  if s = "-" then [] else
  let n = String.length s / 2 in
  let rec go i acc = if i < 0 then acc else go (i - 1) (n_of_int (hexval s.[2*i] * 16 + hexval s.[2*i+1]) :: acc) in
  go (n - 1) []
let hex_of_bytes l =
  if l = [] then "-" else begin
    let b = Buffer.create 64 in
    List.iter (fun x -> Buffer.add_string b (Printf.sprintf "%02x" (int_of_n x))) l; Buffer.contents b end
let text_of_tok s =
  if s = "-" then [] else List.map (fun h -> n_of_int (int_of_string ("0x" ^ h))) (String.split_on_char '.' s)
let tok_of_text l =
  if l = [] then "-" else String.concat "." (List.map (fun x -> Printf.sprintf "%x" (int_of_n x)) l)
(* arbitrary-size N from / to a hex string *)
let n_of_hex s =
  let bits = ref [] in   (* most significant first *)
  String.iter (fun c -> let v = hexval c in bits := !bits @ [v land 8 <> 0; v land 4 <> 0; v land 2 <> 0; v land 1 <> 0]) s;
  let rec strip = function false :: r -> strip r | l -> l in
  match strip !bits with
  | [] -> N0
  | _ :: rest -> Npos (List.fold_left (fun p b -> if b then XI p else XO p) XH rest)
let hex_of_n v =
  match v with
  | N0 -> "0"
  | Npos p ->
    let rec bits p acc = match p with XH -> true :: acc | XO q -> bits q (false :: acc) | XI q -> bits q (true :: acc) in
    let bl = bits p [] in  (* most significant first *)
    let pad = (4 - List.length bl mod 4) mod 4 in
    let bl = List.init pad (fun _ -> false) @ bl in
    let b = Buffer.create 32 in
    let rec go = function
      | a :: b' :: c :: d :: r ->
        let v = (if a then 8 else 0) + (if b' then 4 else 0) + (if c then 2 else 0) + (if d then 1 else 0) in
        Buffer.add_string b (Printf.sprintf "%x" v); go r
      | _ -> () in
    go bl; Buffer.contents b

let fmt_of_tok s = match fmt_of_name (List.map (fun c -> n_of_int (Char.code c)) (List.init (String.length s) (String.get s))) with
  | Some f -> f | None -> failwith ("unknown format " ^ s)
let tok_of_fmt f = String.concat "" (List.map (fun x -> String.make 1 (Char.chr (int_of_n x))) (fmt_name f))

(* ---- oracles: answered by the harness ---- *)
let ask q = print_string ("Q " ^ q ^ "\n"); flush stdout;
  let a = input_line stdin in
  if String.length a < 2 || String.sub a 0 2 <> "A " then failwith ("bad oracle answer: " ^ a);
  String.sub a 2 (String.length a - 2)
let hb f b = bytes_of_hex (ask ("H " ^ tok_of_fmt f ^ " " ^ hex_of_bytes b))

let reply s = print_string ("R " ^ s ^ "\n"); flush stdout
let opt f = function None -> "ERR" | Some x -> f x

let read_file path =
  let ic = open_in_bin path in
  let n = in_channel_length ic in
  let s = really_input_string ic n in close_in ic; s
let chars_of_string s = let rec go i acc = if i < 0 then acc else go (i - 1) (s.[i] :: acc) in go (String.length s - 1) []
let nbytes_of_string s = let rec go i acc = if i < 0 then acc else go (i - 1) (n_of_int (Char.code s.[i]) :: acc) in go (String.length s - 1) []

let handle words =
  match words with
  | ["c4enc"; hexdigest] -> reply (tok_of_text (c4_string_digest (bytes_of_hex hexdigest)))
  | ["c4encv"; hexvalue] -> reply (tok_of_text (c4_enc_value (nat_of_int 128) (n_of_hex hexvalue)))
  | ["c4dec"; tok] -> reply (opt hex_of_bytes (c4_bytes_from_string (text_of_tok tok)))
  | ["c4decv"; tok] -> reply (opt hex_of_n (c4_dec_value (text_of_tok tok)))
  | ["hexenc"; h] -> reply (tok_of_text (hex_enc (bytes_of_hex h)))
  | ["hexdec"; tok] -> reply (opt hex_of_bytes (hex_dec (text_of_tok tok)))
  | ["enc"; f; h] -> reply (tok_of_text (enc (fmt_of_tok f) (bytes_of_hex h)))
  | ["dec"; f; tok] -> reply (opt hex_of_bytes (dec (fmt_of_tok f) (text_of_tok tok)))
  | ["chunks"; which; path] ->
    (* the read loop run on the real file with a tracing hasher: reply = the sizes of the update() calls *)
    let size = N.to_nat (if which = "single" then chunk_size_single else chunk_size_multi) in
    let rem = chars_of_string (read_file path) in
    let upd st c = List.length c :: st in
    (match hash_file_loop upd (S (length rem)) size [] rem with
     | None -> reply "ERR"
     | Some st -> reply (String.concat "," ("chunks" :: List.rev_map string_of_int st)))
  | "plan" :: path :: plan ->
    let size = N.to_nat chunk_size_single in
    let rem = chars_of_string (read_file path) in
    let upd st c = List.length c :: st in
    let (st, rest) = hash_file_plan upd (List.map (fun s -> nat_of_int (int_of_string s)) plan) size [] rem in
    reply (String.concat "," ("chunks" :: List.rev_map string_of_int st) ^ " rest=" ^ string_of_int (List.length rest))
  | ["hashfile"; f; path] ->
    reply (opt tok_of_text (hash_file hb (fmt_of_tok f) (nbytes_of_string (read_file path))))
  | ["hashdata"; f; h] -> reply (tok_of_text (hash_data hb (fmt_of_tok f) (bytes_of_hex h)))
  | "multifile" :: path :: fmts ->
    reply (opt (fun l -> String.concat " " (List.map (fun (f, d) -> tok_of_fmt f ^ "=" ^ tok_of_text d) l))
             (multi_hash_file hb (List.map fmt_of_tok fmts) (nbytes_of_string (read_file path))))
  | "multidata" :: h :: fmts ->
    reply (String.concat " " (List.map (fun (f, d) -> tok_of_fmt f ^ "=" ^ tok_of_text d)
                                (multi_hash_data hb (List.map fmt_of_tok fmts) (bytes_of_hex h))))
  | _ -> (match World_driver.handle ask words with
          | Some r -> reply r
          | None -> reply ("UNKNOWN " ^ String.concat " " words))

let () =
  try
    while true do
      let line = input_line stdin in
      let words = List.filter (fun w -> w <> "") (String.split_on_char ' ' line) in
      (try handle words with
       | Stack_overflow -> reply "EXC stack_overflow"
       | Failure m -> reply ("EXC " ^ m)
       | Not_found -> reply "EXC not_found")
    done
  with End_of_file -> ()
