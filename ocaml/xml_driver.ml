(* Driver for the extracted manifest / chain writer and reader model (xml_model.ml <- Model/Emit.v, Model/Read.v).
   Line protocol on stdin/stdout: one request line (command word + space-separated tokens), one reply line "R ...".
   The driver computes nothing itself: it parses tokens into the extracted datatypes, calls the extracted functions
   and prints their results.
     text      : code points in hex joined by ".", "-" when empty          optional x : "N" | "S" x
     numbers   : N as hex (arbitrary size), Z / small ints as decimal       lists      : count, then the items
     object grammar: see harness/vh/props/c10.py (enc_hashlist / dec_hashlist, enc_chain, enc_tree / dec_tree) *)
open Xml_model

let rec pos_of_int i = if i = 1 then XH else if i land 1 = 0 then XO (pos_of_int (i lsr 1)) else XI (pos_of_int (i lsr 1))
let n_of_int i = if i = 0 then N0 else Npos (pos_of_int i)
let rec int_of_pos = function XH -> 1 | XO p -> 2 * int_of_pos p | XI p -> 2 * int_of_pos p + 1
let int_of_n = function N0 -> 0 | Npos p -> int_of_pos p
let z_of_int i = if i = 0 then Z0 else if i > 0 then Zpos (pos_of_int i) else Zneg (pos_of_int (- i))
let int_of_z = function Z0 -> 0 | Zpos p -> int_of_pos p | Zneg p -> - (int_of_pos p)

let hexval c = match c with
  | '0'..'9' -> Char.code c - 48 | 'a'..'f' -> Char.code c - 87 | 'A'..'F' -> Char.code c - 55
  | _ -> failwith "bad hex"
let n_of_hex s =
  let bits = ref [] in
  String.iter (fun c -> let v = hexval c in bits := (v land 1 <> 0) :: (v land 2 <> 0) :: (v land 4 <> 0) :: (v land 8 <> 0) :: !bits) s;
  (* !bits is least significant first *)
  let rec strip = function false :: r -> strip r | l -> l in
  match strip (List.rev !bits) with
  | [] -> N0
  | _ :: rest -> Npos (List.fold_left (fun p b -> if b then XI p else XO p) XH rest)
let hex_of_n v =
  match v with
  | N0 -> "0"
  | Npos p ->
    let rec bits p acc = match p with XH -> true :: acc | XO q -> bits q (false :: acc) | XI q -> bits q (true :: acc) in
    let bl = bits p [] in
    let pad = (4 - List.length bl mod 4) mod 4 in
    let bl = List.init pad (fun _ -> false) @ bl in
    let b = Buffer.create 32 in
    let rec go = function
      | a :: b' :: c :: d :: r ->
        let v = (if a then 8 else 0) + (if b' then 4 else 0) + (if c then 2 else 0) + (if d then 1 else 0) in
        Buffer.add_string b (Printf.sprintf "%x" v); go r
      | _ -> () in
    go bl; Buffer.contents b

let text_of_tok s =
  if s = "-" then [] else List.map (fun h -> n_of_int (int_of_string ("0x" ^ h))) (String.split_on_char '.' s)
let tok_of_text l =
  if l = [] then "-" else String.concat "." (List.map (fun x -> Printf.sprintf "%x" (int_of_n x)) l)

(* ---- token stream reader ---- *)
let toks : Stdlib.String.t list ref = ref []
let next () = match !toks with x :: r -> toks := r; x | [] -> failwith "unexpected end of request"
let p_text () = text_of_tok (next ())
let p_opt f = match next () with "N" -> None | "S" -> Some (f ()) | x -> failwith ("bad option tag " ^ x)
let p_otext () = p_opt p_text
let p_int () = int_of_string (next ())
let p_list f = let n = p_int () in let rec go i acc = if i = 0 then List.rev acc else go (i - 1) (f () :: acc) in go n []
let p_bool () = next () = "1"
let p_n () = n_of_hex (next ())
let p_date () =
  let y = n_of_int (p_int ()) in let mo = n_of_int (p_int ()) in let d = n_of_int (p_int ()) in
  let h = n_of_int (p_int ()) in let mi = n_of_int (p_int ()) in let s = n_of_int (p_int ()) in
  let us = n_of_int (p_int ()) in let off = z_of_int (p_int ()) in
  { dt_y = y; dt_mo = mo; dt_d = d; dt_h = h; dt_mi = mi; dt_s = s; dt_us = us; dt_off = off }
let p_entry () =
  let f = p_text () in let dg = p_otext () in let a = p_otext () in let d = p_opt p_date in let s = p_otext () in
  { xe_fmt = f; xe_digest = dg; xe_action = a; xe_date = d; xe_struct = s }
let p_record () =
  let p = p_otext () in let dir = p_bool () in let sz = p_opt p_n in let lm = p_opt p_date in
  let es = p_list p_entry in let pv = p_otext () in
  { xr_path = p; xr_dir = dir; xr_size = sz; xr_lastmod = lm; xr_entries = es; xr_prev = pv }
let p_author () =
  let n = p_otext () in let e = p_otext () in let ph = p_otext () in let r = p_otext () in
  { xa_name = n; xa_email = e; xa_phone = ph; xa_role = r }
let p_tool () = let n = p_otext () in let v = p_otext () in { xt_name = n; xt_version = v }
let p_creator () =
  let d = p_otext () in let h = p_otext () in let tl = p_opt p_tool in let au = p_list p_author in
  let l = p_otext () in let c = p_otext () in
  { xc_date = d; xc_host = h; xc_tool = tl; xc_authors = au; xc_location = l; xc_comment = c }
let p_process () = let ty = p_otext () in let nm = p_otext () in { xp_type = ty; xp_name = nm }
let p_procinfo () =
  let pr = p_opt p_process in let rt = p_opt p_record in let ig = p_opt (fun () -> p_list p_otext) in
  { xpi_process = pr; xpi_root = rt; xpi_ignore = ig }
let p_ref () = let p = p_otext () in let c = p_otext () in { xf_path = p; xf_c4 = c }
let p_hashlist () =
  let c = p_opt p_creator in let pi = p_procinfo () in let rs = p_list p_record in let rf = p_list p_ref in
  { xh_creator = c; xh_process = pi; xh_records = rs; xh_refs = rf }
let p_seq () = match next () with
  | "I" -> SeqInt (z_of_int (p_int ())) | "T" -> SeqStr (p_text ()) | "N" -> SeqNone | x -> failwith ("bad seq " ^ x)
let p_chainent () =
  let no = p_seq () in let f = p_otext () in let fm = p_otext () in let h = p_otext () in
  { ce_no = no; ce_file = f; ce_fmt = fm; ce_hash = h }
let rec p_tree () =
  (match next () with "E" -> () | x -> failwith ("bad tree tag " ^ x));
  let tg = p_text () in
  let attrs = p_list (fun () -> let k = p_text () in let v = p_text () in (k, v)) in
  let c = p_otext () in
  let kids = p_list p_tree in
  Elem (tg, attrs, c, kids)

(* ---- printers ---- *)
let b = Buffer.create 4096
let w s = Buffer.add_string b s; Buffer.add_char b ' '
let w_text x = w (tok_of_text x)
let w_opt f = function None -> w "N" | Some x -> w "S"; f x
let w_otext = w_opt w_text
let w_int i = w (string_of_int i)
let w_list f l = w_int (List.length l); List.iter f l
let w_date d =
  List.iter (fun x -> w_int (int_of_n x)) [d.dt_y; d.dt_mo; d.dt_d; d.dt_h; d.dt_mi; d.dt_s; d.dt_us]; w_int (int_of_z d.dt_off)
let w_entry e = w_text e.xe_fmt; w_otext e.xe_digest; w_otext e.xe_action; w_opt w_date e.xe_date; w_otext e.xe_struct
let w_record r =
  w_otext r.xr_path; w (if r.xr_dir then "1" else "0"); w_opt (fun x -> w (hex_of_n x)) r.xr_size; w_opt w_date r.xr_lastmod;
  w_list w_entry r.xr_entries; w_otext r.xr_prev
let w_author a = w_otext a.xa_name; w_otext a.xa_email; w_otext a.xa_phone; w_otext a.xa_role
let w_tool tl = w_otext tl.xt_name; w_otext tl.xt_version
let w_creator c =
  w_otext c.xc_date; w_otext c.xc_host; w_opt w_tool c.xc_tool; w_list w_author c.xc_authors; w_otext c.xc_location; w_otext c.xc_comment
let w_process p = w_otext p.xp_type; w_otext p.xp_name
let w_procinfo p = w_opt w_process p.xpi_process; w_opt w_record p.xpi_root; w_opt (w_list w_otext) p.xpi_ignore
let w_ref r = w_otext r.xf_path; w_otext r.xf_c4
let w_hashlist h = w_opt w_creator h.xh_creator; w_procinfo h.xh_process; w_list w_record h.xh_records; w_list w_ref h.xh_refs
let w_seq = function SeqInt z -> w "I"; w_int (int_of_z z) | SeqStr s -> w "T"; w_text s | SeqNone -> w "N"
let w_chainent e = w_seq e.ce_no; w_otext e.ce_file; w_otext e.ce_fmt; w_otext e.ce_hash
let rec w_tree (Elem (tg, attrs, c, kids)) =
  w "E"; w_text tg; w_list (fun (k, v) -> w_text k; w_text v) attrs; w_otext c; w_list w_tree kids
let w_res f = function None -> w "ERR" | Some x -> w "OK"; f x
let sep () = w "|"

let handle words =
  Buffer.clear b;
  (match words with
   | "hl" :: rest ->
       (* object -> wf | emitted tree (as a parser reports it) | tree_ok | read (emit o) | canon o *)
       toks := rest;
       let o = p_hashlist () in
       let x = emit_hashlist o in
       w (if wf o then "1" else "0"); sep ();
       w_tree (infoset x); sep ();
       w (if tree_ok x then "1" else "0"); sep ();
       w_res w_hashlist (read_hashlist x); sep ();
       w_hashlist (canon o)
   | "ch" :: rest ->
       toks := rest;
       let o = p_list p_chainent in
       let x = emit_chain o in
       w (if wf_chain o then "1" else "0"); sep ();
       w_tree (infoset x); sep ();
       w (if tree_ok x then "1" else "0"); sep ();
       w_res (w_list w_chainent) (read_chain x); sep ();
       w_list w_chainent (canon_chain o)
   | "rd" :: rest -> toks := rest; let x = p_tree () in w_res w_hashlist (read_hashlist x)
   | "rc" :: rest -> toks := rest; let x = p_tree () in w_res (w_list w_chainent) (read_chain x)
   | "newent" :: rest ->
       toks := rest; let f = p_text () in let c = p_text () in let n = z_of_int (p_int ()) in
       w_chainent (chain_entry_of_hashlist f c n)
   | ["pn"; s] -> w_text (posix_norm (text_of_tok s))
   | "iso" :: keep :: rest -> toks := rest; let d = p_date () in w_text (iso_format (keep = "1") d)
   | ["isop"; s] -> w_res w_date (iso_parse (text_of_tok s))
   | _ -> failwith "unknown command");
  print_string ("R " ^ String.trim (Buffer.contents b) ^ "\n"); flush stdout

let () =
  try
    while true do
      let line = input_line stdin in
      let words = List.filter (fun s -> s <> "") (String.split_on_char ' ' line) in
      (try handle words with Failure m -> print_string ("R FAIL " ^ m ^ "\n"); flush stdout)
    done
  with End_of_file -> ()
