#!/bin/bash
# builds the model driver from the freshly extracted model.ml
set -e
cd "$(dirname "$0")"
ocamlfind ocamlopt -w -a -O2 -package str model.mli model.ml world_driver.ml driver.ml -o driver 2>/dev/null || \
ocamlfind ocamlopt -w -a model.mli model.ml world_driver.ml driver.ml -o driver
# C11: the extracted schema validator and its driver
if [ -f schema_model.ml ]; then
  ocamlfind ocamlopt -w -a -O2 schema_model.mli schema_model.ml schema_driver.ml -o schema_driver 2>/dev/null || \
  ocamlfind ocamlopt -w -a schema_model.mli schema_model.ml schema_driver.ml -o schema_driver
fi
# C16: the time / size model has its own extraction (coq/Extract/ExtractTime.v) and driver
if [ -f time_model.ml ]; then
  ocamlfind ocamlopt -w -a -O2 time_model.mli time_model.ml time_driver.ml -o time_driver 2>/dev/null || \
  ocamlfind ocamlopt -w -a time_model.mli time_model.ml time_driver.ml -o time_driver
fi
# C10 / C11: writer + reader model of the manifest and chain files (coq/Extract/ExtractXml.v -> xml_model.ml)
if [ -f xml_model.ml ]; then
  ocamlfind ocamlopt -w -a -O2 xml_model.mli xml_model.ml xml_driver.ml -o xml_driver 2>/dev/null || \
  ocamlfind ocamlopt -w -a xml_model.mli xml_model.ml xml_driver.ml -o xml_driver
fi
