#!/bin/bash
# builds the model driver from the freshly extracted model.ml
set -e
cd "$(dirname "$0")"
ocamlfind ocamlopt -w -a -O2 -package str model.mli model.ml world_driver.ml driver.ml -o driver 2>/dev/null || \
ocamlfind ocamlopt -w -a model.mli model.ml world_driver.ml driver.ml -o driver
