#!/bin/bash
# builds the model driver from the freshly extracted model.ml
set -e
cd "$(dirname "$0")"
ocamlfind ocamlopt -w -a -O2 -package str model.mli model.ml world_driver.ml driver.ml -o driver 2>/dev/null || \
ocamlfind ocamlopt -w -a model.mli model.ml world_driver.ml driver.ml -o driver
# C11: the extracted schema validator and its driver
if [ -f schema_model.ml ]; then
  ocamlfind ocamlopt -w -a -O2 schema_model.mli schema_model.ml schema_driver.ml -o schema_driver 2>/dev/null || \
  ocamlfind ocamlopt -w -a schema_model.mli schema_model.ml schema_driver.ml -o schema_driver
fi
