(* Driver for the extracted time / size model of C16 (time_model.ml).  Line protocol on stdin/stdout, one reply line
   "R ..." per request.  The driver computes nothing itself: it parses integers / texts into the extracted datatypes,
   calls the extracted functions and prints their results.  Texts: the characters themselves (all ASCII, no blanks);
   "-" for the empty text, "NONE" for an absent value, "ERR" where the model says Python raises.
     ZONE <base> <t1:o1,t2:o2,...|->   set the zone (transition table)          -> R ok|irregular
     GAPRULE <0|1>   which CPython variant of astimezone() for naive values      -> R ok
     LASTMOD <t_us> | HASHDATE <now_us> | CREATION <now_us>                      -> R <text> <denoted_us> <off> <wall> <usec>
     ISO <wall> <usec> <fold 0|1> <keep 0|1>   datetime_isostring of a naive value -> (same reply)
     FROMTS <t_us>                                                               -> R <wall> <usec> <fold>
     PARSEISO <text>                                                             -> R <denoted_us> <off> <wall> <usec> | R ERR
     FMTOFF <o>                                                                  -> R <text> <parsed back | ERR>
     FNAME <now_us>                                                              -> R <text> <utc second | ERR>
     SIZE <n>                                                                    -> R <attr | NONE> <read back | NONE | ERR>
     DIRSIZE <n|NONE>                                                            -> R <attr | NONE>
     PARSESIZE <attr | NONE | ->                                                 -> R <n | NONE | ERR> *)
open Time_model

let rec pos_of_int i = if i = 1 then XH else if i land 1 = 0 then XO (pos_of_int (i lsr 1)) else XI (pos_of_int (i lsr 1))
let rec int_of_pos = function XH -> 1 | XO p -> 2 * int_of_pos p | XI p -> 2 * int_of_pos p + 1
let z_of_int i = if i = 0 then Z0 else if i > 0 then Zpos (pos_of_int i) else Zneg (pos_of_int (- i))
let int_of_z = function Z0 -> 0 | Zpos p -> int_of_pos p | Zneg p -> - (int_of_pos p)
let n_of_int i = if i = 0 then N0 else Npos (pos_of_int i)
let int_of_n = function N0 -> 0 | Npos p -> int_of_pos p
let zi s = z_of_int (int_of_string s)
let zs v = string_of_int (int_of_z v)

let text_of_string s = if s = "-" then [] else List.init (String.length s) (fun i -> n_of_int (Char.code s.[i]))
let string_of_text l = if l = [] then "-" else String.concat "" (List.map (fun c -> String.make 1 (Char.chr (int_of_n c))) l)

let zone_base = ref Z0
let zone_tr : (z * z) list ref = ref []
let zone () = off_table !zone_base !zone_tr
let gr = ref false

let reply s = print_string ("R " ^ s ^ "\n"); flush stdout

let stamped_reply s =
  let txt = match iso_text s with Some t -> string_of_text t | None -> "ERR" in
  reply (String.concat " " [txt; zs (denotes s); zs s.s_off; zs s.s_wall; zs s.s_usec])

let handle words =
  match words with
  | ["ZONE"; base; tr] ->
    zone_base := zi base;
    zone_tr := (if tr = "-" then [] else
      List.map (fun p -> match String.split_on_char ':' p with [t; o] -> (zi t, zi o) | _ -> failwith "bad transition")
        (String.split_on_char ',' tr));
    reply (if table_ok !zone_base None !zone_tr then "ok" else "irregular")
  | ["GAPRULE"; v] -> gr := (v = "1"); reply "ok"
  | ["LASTMOD"; t] -> stamped_reply (lastmod_value !gr (zone ()) (zi t))
  | ["HASHDATE"; t] -> stamped_reply (hashdate_value !gr (zone ()) (zi t))
  | ["CREATION"; t] -> stamped_reply (creationdate_value !gr (zone ()) (zi t))
  | ["ISO"; w; us; fd; keep] ->
    stamped_reply (datetime_isostring !gr (zone ()) (Naive { wall = zi w; usec = zi us; fold = (fd = "1") }) (keep = "1"))
  | ["FROMTS"; t] ->
    let d = fromtimestamp (zone ()) (zi t) in
    reply (String.concat " " [zs d.wall; zs d.usec; (if d.fold then "1" else "0")])
  | ["PARSEISO"; txt] ->
    (match parse_iso (text_of_string txt) with
     | Some s -> reply (String.concat " " [zs (denotes s); zs s.s_off; zs s.s_wall; zs s.s_usec])
     | None -> reply "ERR")
  | ["FMTOFF"; o] ->
    let t = fmt_offset (zi o) in
    reply (string_of_text t ^ " " ^ (match parse_offset t with Some v -> zs v | None -> "ERR"))
  | ["FNAME"; t] ->
    let s = filename_stamp (zone ()) (zi t) in
    reply (string_of_text s ^ " " ^ (match parse_filename_stamp s with Some v -> zs v | None -> "ERR"))
  | ["SIZE"; n] ->
    let a = emit_size (Some (zi n)) in
    let back = match recorded_size (zi n) with Some (Some v) -> zs v | Some None -> "NONE" | None -> "ERR" in
    reply ((match a with Some t -> string_of_text t | None -> "NONE") ^ " " ^ back)
  | ["DIRSIZE"; n] ->
    let a = emit_dir_size (if n = "NONE" then None else Some (zi n)) in
    reply (match a with Some t -> string_of_text t | None -> "NONE")
  | ["PARSESIZE"; a] ->
    let arg = if a = "NONE" then None else Some (text_of_string a) in
    reply (match parse_size arg with Some (Some v) -> zs v | Some None -> "NONE" | None -> "ERR")
  | _ -> reply "BAD-REQUEST"

let () =
  try
    while true do
      let line = input_line stdin in
      let words = List.filter (fun w -> w <> "") (String.split_on_char ' ' line) in
      (try handle words with e -> reply ("EXC " ^ Printexc.to_string e))
    done
  with End_of_file -> ()
